------------------------------- MODULE Archive -------------------------------
(***************************************************************************)
(* The automation archive (onsager.automator.supercelltar), as facts:       *)
(*   A.dirs    directory members of the tar file                            *)
(*   A.files   all other members (regular files and symbolic links)         *)
(*   A.tagmap  the JSON tag map, a sequence of [dir, tag]                    *)
(*   A.rules   the dependency data base of the archive's Makefile as make    *)
(*             itself reads it (pattern rules instantiated for the NEB       *)
(*             directories): [target, prereqs, recipe (has one)]             *)
(* and what must hold of them, said outright:                               *)
(*   TagBijection   the tag map pairs the state / transition tags one-to-one *)
(*                  with the directories of the archive, state tags with      *)
(*                  relaxation directories and transition tags with NEB       *)
(*                  directories;                                             *)
(*   DepsResolvable every prerequisite of every rule is a file of the        *)
(*                  archive, a CONTCAR the relaxation in a state directory    *)
(*                  writes, or the target of a rule that can run;            *)
(*   ApplyTrans     what the bundled script does with a transformation file  *)
(*                  [rot, t, map]: output line n is  rot . pos[map[n]] + t    *)
(*                  (map counts from 0), modulo the cell.                    *)
(* Nothing here mirrors supercelltar.                                        *)
(***************************************************************************)
EXTENDS World

SeqSet(s) == {s[n] : n \in DOMAIN s}
Dirs(A) == SeqSet(A.dirs)
Files(A) == SeqSet(A.files)
Path(d, f) == d \o "/" \o f

MapDirs(A) == {A.tagmap[n].dir : n \in DOMAIN A.tagmap}
MapTags(A) == {A.tagmap[n].tag : n \in DOMAIN A.tagmap}
HasDir(A, tag) == \E n \in DOMAIN A.tagmap : A.tagmap[n].tag = tag
DirOf(A, tag) == A.tagmap[CHOOSE n \in DOMAIN A.tagmap : A.tagmap[n].tag = tag].dir

\* a relaxation directory holds a POSCAR to relax; an NEB directory holds (or will hold) two endpoints
IsStateDir(A, d) == Path(d, "POSCAR") \in Files(A)
IsTransDir(A, d) == /\ (Path(d, "POS.init") \in Files(A) \/ Path(d, "POSCAR.init") \in Files(A))
                    /\ (Path(d, "POS.final") \in Files(A) \/ Path(d, "POSCAR.final") \in Files(A))
StateDirs(A) == {d \in Dirs(A) : IsStateDir(A, d)}

MembersUnique(A) == /\ Cardinality(Dirs(A)) = Len(A.dirs)
                    /\ Cardinality(Files(A)) = Len(A.files)
                    /\ Dirs(A) \cap Files(A) = {}

TagBijection(A, stateTags, transTags) ==
  /\ Cardinality(MapDirs(A)) = Len(A.tagmap)                    \* one tag per directory
  /\ Cardinality(MapTags(A)) = Len(A.tagmap)                    \* one directory per tag
  /\ MapDirs(A) = Dirs(A)                                       \* onto the directories
  /\ MapTags(A) = stateTags \cup transTags                      \* defined on exactly the tags
  /\ stateTags \cap transTags = {}
  /\ \A n \in DOMAIN A.tagmap :
        /\ A.tagmap[n].tag \in stateTags => (IsStateDir(A, A.tagmap[n].dir) /\ ~IsTransDir(A, A.tagmap[n].dir))
        /\ A.tagmap[n].tag \in transTags => (IsTransDir(A, A.tagmap[n].dir) /\ ~IsStateDir(A, A.tagmap[n].dir))

\* a rule can run if it has a recipe and something to run it on
CanRun(A, target) ==
  \E n \in DOMAIN A.rules : A.rules[n].target = target /\ A.rules[n].recipe /\ Len(A.rules[n].prereqs) > 0
Produced(A) == Files(A) \cup {Path(d, "CONTCAR") : d \in StateDirs(A)}
                        \cup {A.rules[n].target : n \in {m \in DOMAIN A.rules : CanRun(A, A.rules[m].target)}}
DepsResolvable(A) == \A n \in DOMAIN A.rules : \A p \in SeqSet(A.rules[n].prereqs) : p \in Produced(A)
HasRule(A, target, prereqs) == \E n \in DOMAIN A.rules : A.rules[n].target = target /\ A.rules[n].prereqs = prereqs

\* the bundled script: tf = [rot, t, map] (t and positions in grid units, N = grid size)
MapInRange(tf, pos) == \A n \in DOMAIN tf.map : (tf.map[n] + 1) \in DOMAIN pos
ApplyTrans(tf, pos, N) == [n \in DOMAIN tf.map |-> VMod(VAdd(MV(tf.rot, pos[tf.map[n] + 1]), tf.t), N)]
=============================================================================
